"""D_dim -- dimension inference over the value graph (DESIGN 2.4, C08/C10/...).

A dimension is an exponent vector over the base units.  Exponents live in the
field F = Q(parameters) of rational functions of the solver's dimensionless
parameters (sympy FracField: exact, canonical, no simplification heuristics).
Unknown dimensions are variables; constraints are solved by incremental
Gaussian elimination over F (generic parameter values).  An inconsistent
constraint is a finding; anything the domain does not understand is TOP,
generates nothing and is counted.
"""
from fractions import Fraction
from sympy.polys.fields import field as _field
from sympy import QQ

from .vg import Node, walk

BASE_UNITS = ('M', 'L', 'T', 'K')     # K = temperature (Theta)


class Lin:
    """const (vector over F) + sum coeff_i * var_i  (var_i: unknown vectors)."""
    __slots__ = ('c', 't')

    def __init__(self, c, t=None):
        self.c = tuple(c)
        self.t = t or {}

    def is_const(self):
        return not self.t


class Seq:
    """Heterogeneous fixed-length sequence of dimensions (tuple/list/ODE state)."""
    __slots__ = ('items',)

    def __init__(self, items):
        self.items = list(items)


class Rec:
    __slots__ = ('fields',)

    def __init__(self, fields):
        self.fields = dict(fields)


class Sparse:
    """Array filled component by component with constant indices (state vectors,
    Jacobians): index -> dimension; unknown components are polymorphic."""
    __slots__ = ('items',)

    def __init__(self, items):
        self.items = dict(items)


class Fn:
    """Callable with a dimension signature (interp1d result)."""
    __slots__ = ('xdim', 'ydim')

    def __init__(self, xdim, ydim):
        self.xdim = xdim
        self.ydim = ydim


class _Poly:
    """Dimension-polymorphic value (0, nan, inf, zeros(), empty()): compatible
    with every dimension, generates no constraint."""
    def __repr__(self):
        return 'POLY'


POLY = _Poly()


class Inconsistency:
    def __init__(self, node, what, lhs, rhs, residual):
        self.node = node
        self.what = what
        self.lhs = lhs
        self.rhs = rhs
        self.residual = residual


class DimSystem:
    def __init__(self, symbols, units=BASE_UNITS):
        self.units = tuple(units)
        self.nu = len(self.units)
        names = list(dict.fromkeys(symbols)) or ['_dummy']
        self.sym_names = names
        res = _field(','.join(names) if len(names) > 1 else names[0] + ',_dummy2', QQ)
        self.K = res[0]
        self.syms = dict(zip(names, res[1:]))
        self.zero = self.K.zero
        self.one = self.K.one
        self.nvars = 0
        self.subst = {}           # var -> Lin (fully resolved lazily)
        self.var_names = {}
        self.constraints = 0
        self.nontrivial = 0
        self.inconsistencies = []
        self.samples = []
        self.log = []
        self.checked = 0

    # -- constructors ----------------------------------------------------
    def F(self, x):
        if isinstance(x, Fraction):
            return self.K(QQ(x.numerator, x.denominator))
        if isinstance(x, int):
            return self.K(x)
        return x

    def dimless(self):
        return Lin([self.zero] * self.nu)

    def unit(self, **exps):
        c = [self.zero] * self.nu
        for u, e in exps.items():
            c[self.units.index(u)] = self.F(Fraction(e) if not isinstance(e, Fraction) else e)
        return Lin(c)

    def parse_F(self, text):
        """Exponent given in a spec file: a number, a fraction 'a/b' or a rational
        expression in the parameter symbols, e.g. '2/(geometry+2-omega)'."""
        import ast as _ast
        if isinstance(text, (int, Fraction)):
            return self.F(text)
        if isinstance(text, float):
            return self.F(Fraction(repr(text)))
        tree = _ast.parse(str(text), mode='eval').body

        def ev(n):
            if isinstance(n, _ast.Constant):
                if isinstance(n.value, int):
                    return self.F(n.value)
                return self.F(Fraction(repr(n.value)))
            if isinstance(n, _ast.Name):
                return self.syms[n.id]
            if isinstance(n, _ast.UnaryOp) and isinstance(n.op, _ast.USub):
                return -ev(n.operand)
            if isinstance(n, _ast.BinOp):
                a, b = ev(n.left), ev(n.right)
                if isinstance(n.op, _ast.Add):
                    return a + b
                if isinstance(n.op, _ast.Sub):
                    return a - b
                if isinstance(n.op, _ast.Mult):
                    return a * b
                if isinstance(n.op, _ast.Div):
                    return a / b
            raise ValueError('unsupported exponent expression %r' % text)
        return ev(tree)

    def from_spec(self, spec):
        """spec: dict unit -> exponent (number, fraction or rational expression
        in the parameters), or '1' for dimensionless."""
        if spec in ('1', 1, None):
            return self.dimless()
        c = [self.zero] * self.nu
        for u, e in spec.items():
            if u in self.units:
                c[self.units.index(u)] = self.parse_F(e)
        return Lin(c)

    def fresh(self, name=None):
        self.nvars += 1
        v = self.nvars
        if name:
            self.var_names[v] = name
        return Lin([self.zero] * self.nu, {v: self.one})

    # -- arithmetic --------------------------------------------------------
    def add(self, a, b, sb=1):
        c = tuple(x + sb * y for x, y in zip(a.c, b.c))
        t = dict(a.t)
        for v, k in b.t.items():
            nk = t.get(v, self.zero) + sb * k
            if nk == self.zero:
                t.pop(v, None)
            else:
                t[v] = nk
        return Lin(c, t)

    def scale(self, a, k):
        if k == self.zero:
            return self.dimless()
        return Lin(tuple(x * k for x in a.c), {v: c * k for v, c in a.t.items()})

    def resolve(self, a):
        if not a.t:
            return a
        if not any(v in self.subst for v in a.t):
            return a
        out = Lin(a.c, {})
        for v, k in a.t.items():
            s = self.subst.get(v)
            if s is None:
                out = self.add(out, Lin([self.zero] * self.nu, {v: k}))
            else:
                s = self.resolve(s)
                self.subst[v] = s
                out = self.add(out, self.scale(s, k))
        return out

    def unify(self, a, b, node=None, what='', priority=1):
        """Constrain a == b.  Returns True if consistent."""
        if a is None or b is None:
            return True
        if isinstance(a, Seq) or isinstance(b, Seq):
            return self.unify_seq(a, b, node, what)
        if not isinstance(a, Lin) or not isinstance(b, Lin):
            return True
        self.constraints += 1
        self.log.append((priority, len(self.log), a, b, node, what))
        return self._solve(a, b, node, what, record=True)

    def _solve(self, a, b, node, what, record):
        d = self.resolve(self.add(a, b, -1))
        if not d.t:
            if all(x == self.zero for x in d.c):
                if record and not self._literal(a, b):
                    self.checked += 1
                return True
            if record:
                self.nontrivial += 1
            self.inconsistencies.append(Inconsistency(node, what, self.resolve(a), self.resolve(b), d))
            return False
        if record:
            self.nontrivial += 1
        # pivot: prefer a constant coefficient
        piv = None
        for v, k in d.t.items():
            try:
                if k.numer.is_ground and k.denom.is_ground:
                    piv = v
                    break
            except Exception:
                pass
        if piv is None:
            piv = next(iter(d.t))
        k = d.t[piv]
        rest = Lin(d.c, {v: c for v, c in d.t.items() if v != piv})
        sol = self.scale(rest, -self.one / k)
        self.subst[piv] = sol
        if record and len(self.samples) < 400:
            self.samples.append((node, what, self.resolve(a), self.resolve(b)))
        return True

    def _literal(self, a, b):
        """Both sides are literally dimensionless constants (no information)."""
        return (not a.t and not b.t and all(x == self.zero for x in a.c)
                and all(x == self.zero for x in b.c))

    def _mask(self, lin, keep):
        return Lin(tuple(x if i in keep else self.zero for i, x in enumerate(lin.c)), lin.t)

    def note_prescribed(self, d):
        if not hasattr(self, 'prescribed_units'):
            self.prescribed_units = set()
        try:
            for ui in range(len(self.units)):
                if d.c[ui] != self.zero:
                    self.prescribed_units.add(ui)
        except Exception:
            pass

    def no_carrier(self):
        """Units that no input can carry.  For a base unit U that appears in no
        non-output constraint (no point/time/prescribed dimension mentions it:
        typically mass and temperature), solve the non-output constraints in
        their U-component (homogeneous, hence consistent) and look at every
        output anchor: if the field's U-exponent is then forced (no unknown
        left) to a value other than the required one, no assignment of
        dimensions to the inputs can make the field follow a change of that
        unit.  Returns [(field_what, node, unit, have, want)] and the set of
        output-anchor constraints (log sequence numbers) to leave out of blame()."""
        out, drop = [], set()
        if not self.inconsistencies:
            return out, drop
        nonout = [e for e in self.log if e[0] != 0]
        outs = [e for e in self.log if e[0] == 0]
        for ui, u in enumerate(self.units):
            if any((e[2].c[ui] != self.zero) or (e[3].c[ui] != self.zero) for e in nonout):
                continue
            if ui in getattr(self, 'prescribed_units', ()):
                continue      # some input is prescribed to carry this unit: an ordinary mismatch
            saved = (self.subst, self.inconsistencies)
            self.subst, self.inconsistencies = {}, []
            try:
                keep = {ui}
                for prio, seq, a, b, node, what in nonout:
                    self._solve(self._mask(a, keep), self._mask(b, keep), node, what, record=False)
                for prio, seq, a, b, node, what in outs:
                    ra = self.resolve(self._mask(a, keep))
                    rb = self.resolve(self._mask(b, keep))
                    if not ra.t and not rb.t and ra.c[ui] != rb.c[ui]:
                        out.append((what, node, u, ra.c[ui], rb.c[ui]))
                        drop.add(seq)
            finally:
                self.subst, self.inconsistencies = saved
        return out, drop

    def blame(self, drop=()):
        """Re-solve the logged constraints by *anchored propagation* so that an
        inconsistency is reported at the construct that disagrees with what the
        anchors (points, time, output fields) imply, rather than wherever
        elimination happened to notice it: repeatedly take, in program order,
        every constraint with at most one unknown left (a check or a definite
        binding); when none is left take the earliest remaining one.  The
        verdict (consistent or not) is order-independent.  Output anchors
        in `drop` (log sequence numbers, reported separately by no_carrier)
        are left out."""
        if not self.inconsistencies:
            return []
        saved = (self.subst, self.inconsistencies)
        self.subst, self.inconsistencies = {}, []
        try:
            # output anchors already explained by no_carrier() are left out
            pending = sorted((e for e in self.log if e[1] not in drop), key=lambda e: (e[0], e[1]))
            while pending:
                progress = True
                while progress and pending:
                    progress = False
                    rest = []
                    for e in pending:
                        prio, seq, a, b, node, what = e
                        d = self.resolve(self.add(a, b, -1))
                        if len(d.t) <= 1:
                            self._solve(a, b, node, what, record=False)
                            progress = True
                        else:
                            rest.append(e)
                    pending = rest
                if pending:
                    prio, seq, a, b, node, what = pending.pop(0)
                    self._solve(a, b, node, what, record=False)
            out = self.inconsistencies
        finally:
            self.subst, self.inconsistencies = saved
        return out

    def unify_seq(self, a, b, node, what):
        ok = True
        if isinstance(a, Seq) and isinstance(b, Seq):
            if len(a.items) == len(b.items):
                for x, y in zip(a.items, b.items):
                    ok = self.unify(x, y, node, what) and ok
            return ok
        s, l = (a, b) if isinstance(a, Seq) else (b, a)
        if isinstance(l, Lin):
            for x in s.items:
                ok = self.unify(x, l, node, what) and ok
        return ok

    def same(self, a, b):
        """True if a and b are provably equal now (no constraint added)."""
        if isinstance(a, Lin) and isinstance(b, Lin):
            d = self.resolve(self.add(a, b, -1))
            return not d.t and all(x == self.zero for x in d.c)
        return False

    def is_dimless(self, a):
        a = self.resolve(a)
        return not a.t and all(x == self.zero for x in a.c)

    # -- printing ------------------------------------------------------------
    def show(self, a):
        if a is None:
            return 'TOP'
        if a is POLY:
            return 'POLY'
        if isinstance(a, Seq):
            return '[' + ', '.join(self.show(x) for x in a.items) + ']'
        if isinstance(a, Rec):
            return '{' + ', '.join('%s: %s' % (k, self.show(v)) for k, v in a.fields.items()) + '}'
        if isinstance(a, Fn):
            return '(%s -> %s)' % (self.show(a.xdim), self.show(a.ydim))
        if isinstance(a, Sparse):
            return '{' + ', '.join('%s: %s' % (k, self.show(v)) for k, v in sorted(a.items.items(), key=str)) + '}'
        if not isinstance(a, Lin):
            return '?'
        a = self.resolve(a)
        parts = []
        for u, e in zip(self.units, a.c):
            if e == self.zero:
                continue
            es = str(e.as_expr())
            if es == '1':
                parts.append(u)
            else:
                parts.append('%s^(%s)' % (u, es) if any(ch in es for ch in '+-*/ ') else '%s^%s' % (u, es))
        for v, k in sorted(a.t.items()):
            nm = self.var_names.get(v, '?%d' % v)
            ks = str(k.as_expr())
            parts.append('[%s]' % nm if ks == '1' else '[%s]^(%s)' % (nm, ks))
        return ' '.join(parts) if parts else '1'


# ---------------------------------------------------------------------------

SAME_UNARY = {
    'numpy.abs', 'builtins.abs', 'numpy.negative', 'numpy.flip', 'numpy.sort', 'numpy.cumsum',
    'numpy.sum', 'numpy.mean', 'numpy.amin', 'numpy.amax', 'numpy.min', 'numpy.max', 'builtins.sum',
    'numpy.copy', 'numpy.asarray', 'numpy.array', 'builtins.float', 'numpy.float64', 'numpy.zeros_like',
    'numpy.real', 'numpy.transpose', 'numpy.ravel', 'numpy.squeeze', 'numpy.diff', 'numpy.unique',
    'numpy.atleast_1d', 'numpy.nan_to_num', 'numpy.flipud', 'numpy.fliplr', 'builtins.sorted',
    'builtins.list', 'builtins.tuple', 'builtins.reversed', 'numpy.ndarray.flatten', 'numpy.fabs',
    'numpy.median', 'numpy.float', 'numpy.double', 'copy.copy', 'copy.deepcopy', 'numpy.trapz_',
    'numpy.linalg.norm', 'numpy.round', 'builtins.round', 'numpy.asfarray', 'numpy.ascontiguousarray',
    'numpy.nanmax', 'numpy.nanmin', 'numpy.float_', 'numpy.vstack', 'numpy.hstack',
    'numpy.concatenate', 'numpy.column_stack', 'numpy.stack', 'numpy.reshape', 'numpy.tile',
    'numpy.repeat', 'numpy.ma.masked_invalid', 'numpy.meshgrid', 'numpy.maximum.accumulate',
    'numpy.minimum.accumulate', 'builtins.int',
}
SAME_NARY = {
    'numpy.where_', 'builtins.max', 'builtins.min', 'numpy.maximum', 'numpy.minimum', 'numpy.append',
    'numpy.hypot', 'math.hypot', 'numpy.fmax', 'numpy.fmin', 'numpy.linspace_', 'numpy.heaviside_',
}
DIMLESS_ARG = {
    'numpy.exp', 'numpy.log', 'numpy.log10', 'numpy.sin', 'numpy.cos', 'numpy.tan', 'numpy.sinh',
    'numpy.cosh', 'numpy.tanh', 'numpy.arcsin', 'numpy.arccos', 'numpy.arctan', 'numpy.arcsinh',
    'numpy.arccosh', 'numpy.arctanh', 'math.exp', 'math.log', 'math.log10', 'math.sin', 'math.cos',
    'math.tan', 'math.sinh', 'math.cosh', 'math.tanh', 'math.asin', 'math.acos', 'math.atan',
    'math.erf', 'scipy.special.i0', 'scipy.special.i1', 'scipy.special.erf', 'scipy.special.erfc',
    'scipy.special.gamma', 'numpy.log1p', 'numpy.expm1', 'math.erfc', 'math.gamma', 'numpy.log2',
    'scipy.special.expi', 'scipy.special.exp1', 'math.log1p', 'math.expm1', 'numpy.radians',
    'numpy.degrees', 'numpy.deg2rad', 'numpy.rad2deg',
}
DIMLESS_RESULT_NO_CONSTRAINT = {
    'builtins.len', 'builtins.range', 'numpy.ones', 'numpy.ones_like', 'numpy.sign', 'numpy.shape',
    'numpy.size', 'numpy.argmin', 'numpy.argmax', 'numpy.argsort', 'numpy.isnan', 'numpy.isfinite',
    'numpy.isinf', 'numpy.arange_', 'builtins.bool', 'numpy.any', 'numpy.all', 'builtins.any',
    'builtins.all', 'numpy.logical_and', 'numpy.logical_or', 'numpy.logical_not', 'numpy.nonzero',
    'numpy.ndim', 'numpy.random.rand', 'numpy.count_nonzero', 'numpy.searchsorted_', 'numpy.eye',
    'numpy.identity', 'builtins.isinstance', 'builtins.hasattr', 'numpy.isscalar', 'numpy.iscomplex',
    'numpy.isreal', 'numpy.finfo', 'numpy.array_equal', 'math.isnan', 'math.isinf', 'numpy.angle',
    'math.factorial', 'numpy.floor_', 'builtins.str', 'builtins.type', 'builtins.print',
    'math.copysign_', 'builtins.enumerate', 'builtins.zip',
}
POLY_RESULT = {'numpy.zeros', 'numpy.empty', 'numpy.empty_like', 'numpy.full_'}
BESSEL = {'scipy.special.jn', 'scipy.special.yn', 'scipy.special.jv', 'scipy.special.yv',
          'scipy.special.iv', 'scipy.special.kv', 'scipy.special.jvp', 'scipy.special.yvp',
          'scipy.special.j0', 'scipy.special.j1', 'scipy.special.y0', 'scipy.special.y1',
          'scipy.special.jn_zeros'}
EXT_CONSTANTS_DIMLESS = {'numpy.pi', 'math.pi', 'numpy.e', 'math.e', 'numpy.newaxis', 'numpy.euler_gamma'}
EXT_CONSTANTS_POLY = {'numpy.nan', 'numpy.inf', 'numpy.NaN', 'numpy.Inf', 'numpy.NAN', 'math.inf',
                      'math.nan', 'numpy.infty', 'numpy.PINF', 'numpy.NINF'}

SAME_METHODS = {'sum', 'max', 'min', 'mean', 'copy', 'flatten', 'transpose', 'astype', 'reshape',
                'tolist', 'cumsum', 'ravel', 'squeeze', 'item', 'real', 'conj', 'clip_', 'round',
                'view', 'T', 'flat', 'imag'}
SAME_ATTRS = {'T', 'real', 'flat', 'imag', 'values'}
DIMLESS_ATTRS = {'shape', 'size', 'ndim', 'dtype'}


class DimEval:
    """Fold of the value graph into the dimension domain."""

    def __init__(self, system, input_dims=None, param_dims=None, const_dims=None, output_dims=None,
                 unanchored_outputs_ok=True):
        self.S = system
        self.memo = {}
        self.param_vars = {}
        self.input_dims = input_dims or {}
        self.param_dims = param_dims or {}
        self.const_dims = const_dims or {}    # class-attribute name -> Lin for built-in constants
        self.output_dims = output_dims or {}
        self.top_count = 0
        self.top_reasons = {}
        self.outputs = []          # (name, dim, node)
        self.rat_memo = {}
        self.unknown_ext = {}
        self.pow_unresolved = []
        self.pending_mu = []
        # units carried by a PRESCRIBED input / parameter / constant dimension: an input does carry them
        for tbl in (self.input_dims, self.param_dims, self.const_dims):
            for d in tbl.values():
                self.S.note_prescribed(d)

    # -- rational value of dimensionless expressions -------------------------
    def ratval(self, n):
        if n is None:
            return None
        if n.nid in self.rat_memo:
            return self.rat_memo[n.nid]
        self.rat_memo[n.nid] = None
        r = self._ratval(n)
        self.rat_memo[n.nid] = r
        return r

    def _ratval(self, n):
        S = self.S
        k = n.kind
        try:
            if k == 'const':
                v = n.val
                if isinstance(v, bool) or v is None:
                    return None
                if isinstance(v, int):
                    return S.F(v)
                if isinstance(v, float):
                    if v != v or v in (float('inf'), float('-inf')):
                        return None
                    return S.F(Fraction(repr(v)))
                return None
            if k == 'param':
                s = S.syms.get(n.val)
                return s
            if k == 'binop':
                a = self.ratval(n.args[0])
                b = self.ratval(n.args[1])
                if a is None or b is None:
                    return None
                op = n.val
                if op == '+':
                    return a + b
                if op == '-':
                    return a - b
                if op == '*':
                    return a * b
                if op == '/':
                    if b == S.zero:
                        return None
                    return a / b
                if op == '**':
                    if b.numer.is_ground and b.denom.is_ground:
                        q = Fraction(int(b.numer.LC), int(b.denom.LC)) if not b == S.zero else Fraction(0)
                        if q.denominator == 1 and abs(q.numerator) <= 8:
                            if q.numerator < 0 and a == S.zero:
                                return None
                            return a ** int(q.numerator)
                    return None
                return None
            if k == 'unop':
                a = self.ratval(n.args[0])
                if a is None:
                    return None
                if n.val == '-':
                    return -a
                if n.val == '+':
                    return a
                return None
            if k == 'call' and n.val in ('builtins.float', 'numpy.float64', 'numpy.float', 'builtins.pow_'):
                return self.ratval(n.args[0]) if n.args else None
            if k == 'call' and n.val in ('builtins.pow', 'math.pow') and len(n.args) == 2:
                fake = Node('binop', '**', n.args)
                return self._ratval(fake)
            if k == 'phi':
                a = self.ratval(n.args[1])
                b = self.ratval(n.args[2])
                if a is not None and b is not None and a == b:
                    return a
                return None
        except (ZeroDivisionError, Exception):
            return None
        return None

    # -- dimension -----------------------------------------------------------
    def top(self, n, why):
        self.top_count += 1
        self.top_reasons[why] = self.top_reasons.get(why, 0) + 1
        return None

    def dim(self, n):
        if n is None:
            return None
        if n.nid in self.memo:
            return self.memo[n.nid]
        self.memo[n.nid] = None        # cycle guard (mu nodes set their own)
        d = self._dim(n)
        self.memo[n.nid] = d
        return d

    def homog(self, d, node=None, what='homogeneous array'):
        """Collapse a Seq into one dimension by *join* (TOP on mismatch)."""
        if isinstance(d, Seq):
            items = [self.homog(x) for x in d.items]
            if any(x is None for x in items):
                return None
            items = [x for x in items if x is not POLY]
            if not items:
                return POLY
            first = items[0]
            for x in items[1:]:
                if not self.S.same(first, x):
                    return None
            return first
        if isinstance(d, Sparse):
            return self.homog(Seq(list(d.items.values())))
        if isinstance(d, Lin) or d is POLY:
            return d
        return None

    @staticmethod
    def deseq(d):
        """A Sparse vector with components 0..n-1 is an ordinary sequence."""
        if isinstance(d, Sparse):
            ks = sorted(k for k in d.items if isinstance(k, int))
            if ks and len(ks) == len(d.items) and ks == list(range(len(ks))):
                return Seq([d.items[k] for k in ks])
        return d

    @staticmethod
    def const_index(idx_n):
        if idx_n.kind == 'const' and isinstance(idx_n.val, int) and not isinstance(idx_n.val, bool):
            return idx_n.val
        if idx_n.kind == 'tuple' and idx_n.args and all(a.kind == 'const' and isinstance(a.val, int)
                                                         and not isinstance(a.val, bool) for a in idx_n.args):
            return tuple(a.val for a in idx_n.args)
        return None

    def _dim(self, n):
        S = self.S
        k = n.kind
        if k == 'const':
            v = n.val
            if isinstance(v, bool):
                return S.dimless()
            if isinstance(v, (int, float)):
                if v == 0 or v != v or v in (float('inf'), float('-inf')):
                    return POLY
                return S.dimless()
            return None
        if k == 'param':
            if n.val not in self.param_vars:
                if n.val in self.param_dims:
                    self.param_vars[n.val] = self.param_dims[n.val]
                else:
                    self.param_vars[n.val] = S.fresh(n.val)
            return self.param_vars[n.val]
        if k == 'input':
            d = self.input_dims.get(n.val)
            if d is None:
                d = S.fresh(n.val)
                self.input_dims[n.val] = d
            return d
        if k == 'hoarg':
            return S.fresh()
        if k in ('unknown', 'undef', 'closure', 'obj', 'module', 'class', 'kwargs', 'super', 'callunk',
                 'slice', 'attrstore', 'starred'):
            if k in ('unknown', 'callunk'):
                return self.top(n, k + ':' + str(n.val)[:40])
            return None
        if k == 'extfunc':
            if n.val in EXT_CONSTANTS_DIMLESS:
                return S.dimless()
            if n.val in EXT_CONSTANTS_POLY:
                return POLY
            return None
        if k == 'index':
            for a in n.args:
                self.dim(a)
            return S.dimless()
        if k == 'binop':
            return self.d_binop(n)
        if k == 'unop':
            a = self.dim(n.args[0])
            if n.val in ('not', '~'):
                return S.dimless()
            return a
        if k == 'cmp':
            a = self.dim(n.args[0])
            b = self.dim(n.args[1])
            if n.val in ('<', '<=', '>', '>=', '==', '!='):
                self.cmp_unify(a, b, n)
            elif n.val in ('in', 'not in'):
                if isinstance(b, Seq) and isinstance(a, Lin):
                    for x in b.items:
                        if isinstance(x, Lin):
                            S.unify(a, x, n, 'membership test')
            return S.dimless()
        if k == 'bool':
            for a in n.args:
                self.dim(a)
            return S.dimless()
        if k == 'phi':
            self.dim(n.args[0])
            a = self.dim(n.args[1])
            b = self.dim(n.args[2])
            return self.join_unify(a, b, n, 'both branches of a conditional')
        if k == 'mu':
            # loop-carried value: its dimension is that of the initial value (a fresh
            # unknown for 0 / zeros() accumulators); the back edge is constrained
            # after the whole trace has been folded (no forward recursion, no cycles)
            init = self.dim(n.args[0])
            if init is POLY or (init is None and n.args[0].kind == 'undef'):
                init = S.fresh()
            self.pending_mu.append(n)
            return init
        if k in ('tuple', 'list'):
            return Seq([self.dim(a) for a in n.args])
        if k == 'dict':
            return Rec({(kk if not isinstance(kk, Node) else kk.nid): self.dim(v)
                        for kk, v in zip(n.val, n.args)})
        if k == 'arrayof':
            return self.homog(self.dim(n.args[0]))
        if k == 'elem':
            return self.homog(self.dim(n.args[0]))
        if k == 'sub':
            return self.d_sub(n)
        if k == 'store':
            return self.d_store(n)
        if k == 'attr':
            base = self.dim(n.args[0])
            if n.val in DIMLESS_ATTRS:
                return S.dimless()
            if n.val in SAME_ATTRS:
                return base
            if isinstance(base, Rec):
                return base.fields.get(n.val)
            return self.top(n, 'attr:' + n.val)
        if k == 'call':
            return self.d_call(n)
        if k == 'mcall':
            return self.d_mcall(n)
        return self.top(n, 'kind:' + k)

    def cmp_unify(self, a, b, n):
        S = self.S
        a = self.homog(a) if isinstance(a, Seq) else a
        b = self.homog(b) if isinstance(b, Seq) else b
        if isinstance(a, Lin) and isinstance(b, Lin):
            S.unify(a, b, n, 'comparison operands')

    def join_unify(self, a, b, n, what):
        S = self.S
        a, b = self.deseq(a), self.deseq(b)
        if isinstance(a, Sparse) and isinstance(b, Sparse):
            items = dict(a.items)
            for k, v in b.items.items():
                items[k] = self.join_unify(items.get(k, POLY), v, n, what)
            return Sparse(items)
        if isinstance(a, Sparse):
            a = self.homog(a)
        if isinstance(b, Sparse):
            b = self.homog(b)
        if a is None or a is POLY:
            return b if b is not None else a
        if b is None or b is POLY:
            return a
        if isinstance(a, Lin) and isinstance(b, Lin):
            S.unify(a, b, n, what)
            return a
        if isinstance(a, Seq) and isinstance(b, Seq):
            if len(a.items) == len(b.items):
                return Seq([self.join_unify(x, y, n, what) for x, y in zip(a.items, b.items)])
            ha, hb = self.homog(a), self.homog(b)
            return self.join_unify(ha, hb, n, what)
        if isinstance(a, Seq) and isinstance(b, Lin):
            ha = self.homog(a)
            return self.join_unify(ha, b, n, what)
        if isinstance(b, Seq) and isinstance(a, Lin):
            hb = self.homog(b)
            return self.join_unify(a, hb, n, what)
        if isinstance(a, Rec) and isinstance(b, Rec):
            return Rec({kk: self.join_unify(a.fields.get(kk), b.fields.get(kk), n, what)
                        for kk in set(a.fields) | set(b.fields)})
        return a

    def arith(self, a, b, fn, additive=False):
        """Apply fn(Lin, Lin) -> Lin elementwise over Seq operands."""
        a, b = self.deseq(a), self.deseq(b)
        if isinstance(a, Sparse):
            a = self.homog(a)
        if isinstance(b, Sparse):
            b = self.homog(b)
        if a is None or b is None:
            return None
        if a is POLY or b is POLY:
            if additive:
                return b if a is POLY else a
            if isinstance(a, Seq):
                return Seq([POLY] * len(a.items))
            if isinstance(b, Seq):
                return Seq([POLY] * len(b.items))
            return POLY
        if isinstance(a, Seq) and isinstance(b, Seq):
            if len(a.items) == len(b.items):
                return Seq([self.arith(x, y, fn, additive) for x, y in zip(a.items, b.items)])
            return None
        if isinstance(a, Seq):
            return Seq([self.arith(x, b, fn, additive) for x in a.items])
        if isinstance(b, Seq):
            return Seq([self.arith(a, y, fn, additive) for y in b.items])
        if isinstance(a, Lin) and isinstance(b, Lin):
            return fn(a, b)
        return None

    def d_binop(self, n):
        S = self.S
        op = n.val
        a = self.dim(n.args[0])
        b = self.dim(n.args[1])
        if op in ('+', '-'):
            # list concatenation
            if op == '+' and n.args[0].kind in ('list', 'tuple') and n.args[1].kind in ('list', 'tuple'):
                return Seq(list(a.items) + list(b.items))
            if a is None:
                return b
            if b is None:
                return a

            def f(x, y):
                S.unify(x, y, n, 'operands of %s' % op)
                return x
            return self.arith(a, b, f, additive=True)
        if op in ('*', '@'):
            return self.arith(a, b, lambda x, y: S.add(x, y))
        if op == '/':
            return self.arith(a, b, lambda x, y: S.add(x, y, -1))
        if op == '//':
            self.arith(a, b, lambda x, y: (S.unify(x, y, n, 'operands of //'), x)[1], additive=True)
            return S.dimless()
        if op == '%':
            return self.arith(a, b, lambda x, y: (S.unify(x, y, n, 'operands of %'), x)[1], additive=True)
        if op == '**':
            return self.d_pow(n, n.args[0], n.args[1], a, b)
        if op in ('&', '|', '^'):
            return S.dimless()
        return self.top(n, 'binop:' + op)

    def d_pow(self, n, base_n, exp_n, a, b):
        S = self.S
        if isinstance(b, Lin):
            S.unify(b, S.dimless(), n, 'exponent must be dimensionless')
        e = self.ratval(exp_n)
        if a is None:
            return None
        if a is POLY:
            return POLY
        if e is None:
            # exponent value not a rational function of parameters
            ha = self.homog(a) if isinstance(a, Seq) else a
            if isinstance(ha, Lin) and S.is_dimless(ha):
                return S.dimless()
            self.pow_unresolved.append(n)
            return self.top(n, 'pow: exponent value unknown')
        if isinstance(a, Seq):
            return Seq([S.scale(x, e) if isinstance(x, Lin) else (POLY if x is POLY else None)
                        for x in a.items])
        if isinstance(a, Lin):
            return S.scale(a, e)
        return None

    def d_sub(self, n):
        base_n, idx_n = n.args
        base = self.dim(base_n)
        self.dim(idx_n)
        if isinstance(base, Seq):
            if idx_n.kind == 'const' and isinstance(idx_n.val, int) and not isinstance(idx_n.val, bool):
                if -len(base.items) <= idx_n.val < len(base.items):
                    return base.items[idx_n.val]
            if idx_n.kind == 'tuple' and idx_n.args and idx_n.args[0].kind == 'const' \
                    and isinstance(idx_n.args[0].val, int):
                i = idx_n.args[0].val
                if -len(base.items) <= i < len(base.items):
                    return base.items[i]
            if idx_n.kind == 'slice':
                lo, hi, st = idx_n.args
                if all(x.kind == 'const' for x in (lo, hi, st)):
                    try:
                        return Seq(base.items[slice(lo.val, hi.val, st.val)])
                    except Exception:
                        pass
            return self.homog(base)
        if isinstance(base, Rec):
            if idx_n.kind == 'const':
                return base.fields.get(idx_n.val)
            return None
        if isinstance(base, Sparse):
            ci = self.const_index(idx_n)
            if ci is not None:
                return base.items.get(ci, POLY)
            return self.homog(base)
        return base

    def d_store(self, n):
        S = self.S
        base_n, idx_n, val_n = n.args
        base = self.dim(base_n)
        self.dim(idx_n)
        v = self.dim(val_n)
        if n.val == 'extend' and isinstance(v, Seq):
            v = self.homog(v)
        if isinstance(base, Seq):
            if not base.items:
                # empty list literal being filled
                return self.homog(v) if isinstance(v, Seq) else v
            if idx_n.kind == 'const' and isinstance(idx_n.val, int) and not isinstance(idx_n.val, bool) \
                    and -len(base.items) <= idx_n.val < len(base.items):
                items = list(base.items)
                items[idx_n.val] = v if not isinstance(v, Seq) else self.homog(v)
                return Seq(items)
            if n.val in ('append',):
                return Seq(list(base.items) + [v])
            hb = self.homog(base)
            hv = self.homog(v) if isinstance(v, Seq) else v
            if isinstance(hb, Lin) and isinstance(hv, Lin):
                S.unify(hb, hv, n, 'value stored into array')
            return hb
        ci = self.const_index(idx_n)
        if isinstance(base, Sparse):
            hv = self.homog(v) if isinstance(v, (Seq, Sparse)) else v
            if ci is not None:
                items = dict(base.items)
                items[ci] = hv
                return Sparse(items)
            hb = self.homog(base)
            if isinstance(hb, Lin) and isinstance(hv, Lin):
                S.unify(hb, hv, n, 'value stored into array')
            return hb if hb is not None else hv
        if isinstance(base, Lin):
            hv = self.homog(v) if isinstance(v, (Seq, Sparse)) else v
            if isinstance(hv, Lin):
                S.unify(base, hv, n, 'value stored into array')
            return base
        if base is POLY:
            hv = self.homog(v) if isinstance(v, (Seq, Sparse)) else v
            if ci is not None and base_n.kind == 'call' and n.val is None:
                return Sparse({ci: hv})
            return hv if hv is not None else None
        if base is None:
            return None
        return base

    # -- library calls -----------------------------------------------------
    def d_call(self, n):
        S = self.S
        name = n.val
        args = n.args
        ds = [self.dim(a) for a in args]
        kd = {k: self.dim(v) for k, v in n.kw.items()}

        def arg(i, key=None):
            if i < len(ds):
                return ds[i]
            if key is not None:
                return kd.get(key)
            return None

        def same_all(dlist, what):
            dl = []
            npoly = 0
            for d in dlist:
                if isinstance(d, Seq):
                    d = self.homog(d)
                if isinstance(d, Lin):
                    dl.append(d)
                elif d is POLY:
                    npoly += 1
            if not dl:
                return POLY if npoly else None
            for d in dl[1:]:
                S.unify(dl[0], d, n, what)
            return dl[0]

        if name == 'exactpack.base.ExactSolution':
            return self.d_solution(n)
        if name in SAME_UNARY:
            d = arg(0)
            if name in ('numpy.array', 'numpy.asarray', 'builtins.list', 'builtins.tuple', 'numpy.vstack',
                        'numpy.hstack', 'numpy.concatenate', 'numpy.column_stack', 'numpy.stack') \
                    and isinstance(d, Seq):
                return d
            if isinstance(d, Seq):
                return self.homog(d)
            return d
        if name in ('numpy.where', 'numpy.select_'):
            if len(ds) == 1:
                return Seq([S.dimless()])
            return self.join_unify(arg(1), arg(2), n, 'the two value arguments of where()') \
                if not (isinstance(arg(1), Seq) or isinstance(arg(2), Seq)) else same_all(ds[1:3], 'where()')
        if name in SAME_NARY:
            flat = []
            for d in ds:
                flat.append(d)
            return same_all(flat, 'arguments of %s' % name.split('.')[-1])
        if name in ('numpy.linspace', 'numpy.arange', 'numpy.logspace_'):
            lim = ds[:3] if name == 'numpy.arange' else ds[:2]
            return same_all(lim, 'limits of %s' % name.split('.')[-1])
        if name in ('numpy.clip',):
            return same_all(ds[:3], 'arguments of clip')
        if name in ('numpy.isclose', 'numpy.allclose', 'math.isclose'):
            same_all(ds[:2], 'arguments of isclose')
            return S.dimless()
        if name in ('numpy.arctan2', 'math.atan2'):
            same_all(ds[:2], 'arguments of arctan2')
            return S.dimless()
        if name in DIMLESS_ARG:
            d = arg(0)
            if isinstance(d, Seq):
                d = self.homog(d)
            if isinstance(d, Lin):
                S.unify(d, S.dimless(), n, 'argument of %s must be dimensionless' % name.split('.')[-1])
            return S.dimless()
        if name in BESSEL:
            d = ds[-1] if ds else None
            if isinstance(d, Lin):
                S.unify(d, S.dimless(), n, 'argument of %s must be dimensionless' % name.split('.')[-1])
            return S.dimless()
        if name in DIMLESS_RESULT_NO_CONSTRAINT:
            return S.dimless()
        if name in POLY_RESULT:
            return POLY
        if name in ('numpy.full', 'numpy.full_like'):
            return arg(1)
        if name in ('numpy.sqrt', 'math.sqrt', 'numpy.cbrt', 'numpy.square'):
            d = arg(0)
            e = {'numpy.sqrt': Fraction(1, 2), 'math.sqrt': Fraction(1, 2), 'numpy.cbrt': Fraction(1, 3),
                 'numpy.square': Fraction(2)}[name]
            if isinstance(d, Seq):
                return Seq([S.scale(x, S.F(e)) if isinstance(x, Lin) else (POLY if x is POLY else None)
                            for x in d.items])
            return S.scale(d, S.F(e)) if isinstance(d, Lin) else (POLY if d is POLY else None)
        if name in ('builtins.pow', 'math.pow', 'numpy.float_power') and len(args) >= 2:
            return self.d_pow(n, args[0], args[1], ds[0], ds[1])
        if name in ('numpy.dot', 'numpy.inner', 'numpy.multiply', 'numpy.outer', 'numpy.cross', 'numpy.vdot',
                    'numpy.matmul'):
            a, b = arg(0), arg(1)
            a = self.homog(a) if isinstance(a, Seq) else a
            b = self.homog(b) if isinstance(b, Seq) else b
            if isinstance(a, Lin) and isinstance(b, Lin):
                return S.add(a, b)
            return None
        if name in ('numpy.divide', 'numpy.true_divide'):
            return self.arith(arg(0), arg(1), lambda x, y: S.add(x, y, -1))
        if name in ('numpy.add', 'numpy.subtract'):
            return same_all(ds[:2], 'operands')
        if name in ('numpy.prod',):
            return self.top(n, 'prod')
        if name in ('numpy.interp',):
            x, xp, fp = arg(0, 'x'), arg(1, 'xp'), arg(2, 'fp')
            same_all([x, xp], 'interp(): abscissae of the query and of the table')
            extra = [kd[k] for k in ('left', 'right') if k in kd]
            if extra:
                same_all([fp] + extra, 'interp(): table values and fill values')
            return self.homog(fp) if isinstance(fp, Seq) else fp
        if name in ('scipy.interpolate.interp1d', 'scipy.interpolate.interpolate.interp1d'):
            xd, yd = arg(0), arg(1)
            xd = self.homog(xd) if isinstance(xd, Seq) else xd
            yd = self.homog(yd) if isinstance(yd, Seq) else yd
            return Fn(xd, yd)
        if name == 'interp1d.__call__':
            f = ds[0]
            if isinstance(f, Fn):
                x = ds[1] if len(ds) > 1 else None
                if isinstance(x, Seq):
                    x = self.homog(x)
                if isinstance(x, Lin) and isinstance(f.xdim, Lin):
                    S.unify(x, f.xdim, n, 'interp1d: abscissae of the query and of the table')
                return f.ydim
            return None
        if name in ('numpy.trapz', 'scipy.integrate.trapz', 'scipy.integrate.simps', 'numpy.trapezoid'):
            y, x = arg(0), arg(1, 'x')
            if isinstance(y, Lin) and isinstance(x, Lin):
                return S.add(y, x)
            return None
        if name in ('numpy.gradient',):
            y, x = arg(0), arg(1)
            if isinstance(y, Lin) and isinstance(x, Lin):
                return S.add(y, x, -1)
            return None
        if name in ('numpy.mgrid', 'numpy.ogrid'):
            return None
        if name in ('numpy.rec.fromarrays',):
            return None
        if n.ho is not None:
            return self.d_ho(n, ds, kd)
        if name.startswith('builtins.') and name.split('.')[1][:1].isupper():
            return None       # exception constructors
        if name in ('warnings.warn', 'builtins.print', 'builtins.open', 'builtins.exec', 'builtins.compile'):
            return None
        self.unknown_ext[name] = self.unknown_ext.get(name, 0) + 1
        return self.top(n, 'ext:' + name)

    def d_ho(self, n, ds, kd):
        S = self.S
        name = n.val
        ho = n.ho
        ph = ho['placeholders']
        res_n = ho['result']

        def lin(d):
            if isinstance(d, Seq):
                return self.homog(d)
            return d if isinstance(d, Lin) else None

        if ho['mode'] == 'root1':
            if name in ('scipy.optimize.bisect', 'scipy.optimize.brentq', 'scipy.optimize.fminbound',
                        'scipy.integrate.quad'):
                a, b = lin(ds[1]) if len(ds) > 1 else None, lin(ds[2]) if len(ds) > 2 else None
                if a is not None and b is not None:
                    S.unify(a, b, n, 'the two limits of %s' % name.split('.')[-1])
                xd = a if a is not None else b
            else:
                xd = lin(ds[1]) if len(ds) > 1 else lin(kd.get('x0'))
            if xd is None:
                xd = S.fresh()
            # tolerance on the unknown: scipy's bracketing root finders stop at |b - a| < xtol + rtol |x| with the
            # ABSOLUTE default xtol = 2e-12 -- a pure number compared with the unknown, in whatever unit the user chose.
            # Recorded, not unified (C08 reports it separately once the unknown's dimension is known).
            if name in ('scipy.optimize.bisect', 'scipy.optimize.brentq', 'scipy.optimize.brenth', 'scipy.optimize.ridder'):
                xt = kd.get('xtol')
                if xt is None and len(ds) > 4:
                    xt = ds[4]
                if not hasattr(self, 'root_tolerances'):
                    self.root_tolerances = []
                self.root_tolerances.append((n, xd, lin(xt) if xt is not None else None, xt is not None))
            self.memo[ph[0].nid] = xd
            fr = self.dim(res_n) if res_n is not None else None
            for key, ph2, r2 in ho.get('callbacks', []):
                self.memo[ph2[0].nid] = xd
                self.dim(r2)
            if name == 'scipy.integrate.quad':
                fr = lin(fr)
                v = S.add(fr, xd) if fr is not None else None
                return Seq([v, v])
            if name == 'scipy.optimize.fsolve' and kd.get('full_output') is not None:
                return Seq([xd, None, S.dimless(), None])
            return xd
        # ODE integrators
        if name == 'scipy.integrate.solve_ivp':
            span = ds[1] if len(ds) > 1 else kd.get('t_span')
            y0 = self.deseq(ds[2] if len(ds) > 2 else kd.get('y0'))
            td = lin(span)
        elif name == 'scipy.integrate.odeint':
            y0 = self.deseq(ds[1] if len(ds) > 1 else None)
            td = lin(ds[2]) if len(ds) > 2 else None
        else:
            # scipy.integrate.ode(f): state set later through methods -- opaque
            for p in ph:
                self.memo[p.nid] = None
            if res_n is not None:
                self.dim(res_n)
            return None
        if td is None:
            td = S.fresh()
        tph = [p for p in ph if p.val == 't'][0]
        yph = [p for p in ph if p.val == 'y'][0]
        self.memo[tph.nid] = td
        self.memo[yph.nid] = y0
        r = self.deseq(self.dim(res_n)) if res_n is not None else None
        if isinstance(y0, Sparse):
            y0 = self.homog(y0)
        # dy/dt : [y]/[t]
        if isinstance(y0, Seq) and isinstance(r, Seq) and len(y0.items) == len(r.items):
            for yi, ri in zip(y0.items, r.items):
                if isinstance(yi, Lin) and isinstance(ri, Lin):
                    S.unify(ri, S.add(yi, td, -1), n, 'ODE right-hand side component vs state/time')
        else:
            yl, rl = lin(y0), lin(r)
            if yl is not None and rl is not None and not isinstance(y0, Seq) and not isinstance(r, Seq):
                S.unify(rl, S.add(yl, td, -1), n, 'ODE right-hand side vs state/time')
        for key, ph2, r2 in ho.get('callbacks', []):
            for p in ph2:
                self.memo[p.nid] = td if p.val == 't' else y0
            self.dim(r2)
        if name == 'scipy.integrate.solve_ivp':
            return Rec({'y': y0, 't': td, 't_events': Seq([td, td, td]), 'success': S.dimless(),
                        'status': S.dimless()})
        return y0 if not isinstance(y0, Seq) else y0

    def d_mcall(self, n):
        S = self.S
        recv = self.dim(n.args[0])
        ds = [self.dim(a) for a in n.args[1:]]
        for v in n.kw.values():
            self.dim(v)
        name = n.val
        if name in SAME_METHODS:
            return self.homog(recv) if (isinstance(recv, Seq) and name in ('sum', 'max', 'min', 'mean')) else recv
        if name == 'dot':
            a = self.homog(recv) if isinstance(recv, Seq) else recv
            b = ds[0] if ds else None
            b = self.homog(b) if isinstance(b, Seq) else b
            if isinstance(a, Lin) and isinstance(b, Lin):
                return S.add(a, b)
            return None
        if name in ('argmin', 'argmax', 'index', 'count', 'any', 'all', 'argsort', 'nonzero', 'successful'):
            return S.dimless()
        if name in ('keys', 'items', 'values', 'get', 'pop', 'format', 'join', 'split', 'strip', 'lower',
                    'upper', 'startswith', 'endswith', 'replace', 'sort', 'reverse', 'append', 'extend',
                    'set_initial_value', 'set_f_params', 'set_integrator', 'integrate', 'update', 'write',
                    'close', 'writerow', 'writerows', 'fill', 'insert', 'setdefault', 'copy', 'warn'):
            return None
        return self.top(n, 'method:' + name)

    def d_solution(self, n):
        S = self.S
        data = n.args[0] if n.args else n.kw.get('data')
        names = n.args[1] if len(n.args) > 1 else n.kw.get('names')
        for v in n.kw.values():
            self.dim(v)
        if data is None or names is None:
            return None
        dd = self.dim(data)
        nm = None
        if names.kind in ('list', 'tuple') and all(a.kind == 'const' for a in names.args):
            nm = [a.val for a in names.args]
        if nm is None or not isinstance(dd, Seq) or len(dd.items) != len(nm):
            self.top(n, 'solution fields not resolved')
            return None
        for name, d, dn in zip(nm, dd.items, data.args if data.kind in ('list', 'tuple') else [n] * len(nm)):
            if isinstance(d, Seq):
                d = self.homog(d)
            self.outputs.append((name, d, dn))
            want = self.output_dims.get(name)
            if want is not None and isinstance(d, Lin):
                S.unify(d, want, dn, "output field '%s' vs its physical dimension" % name, priority=0)
        return None

    # -- drive over the whole trace -------------------------------------------
    def run(self, trace):
        for n in trace:
            self.dim(n)
        i = 0
        while i < len(self.pending_mu):
            n = self.pending_mu[i]
            i += 1
            if n.args[1] is None or n.args[1] is n:
                continue
            nxt = self.dim(n.args[1])
            self.join_unify(self.memo.get(n.nid), nxt, n, 'loop-carried value')
