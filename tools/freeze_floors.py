#!/usr/bin/env python3
"""Freeze coverage floors from the evidence of the last clean run (maintenance; never run by a check)."""
import json, os
V = os.path.dirname(os.path.dirname(os.path.abspath(__file__)))
p = os.path.join(V, 'spec', 'minimum_coverage.json')
floors = json.load(open(p))
for prop in ('C08', 'C10'):
    ev = json.load(open(os.path.join(V, 'evidence', prop + '.json')))
    fl = {}
    for cname, d in ev['coverage']['per_class'].items():
        if 'constraints' in d and 'outputs_anchored' in d:
            n = d['outputs_anchored'] if isinstance(d['outputs_anchored'], int) else len(d['outputs_anchored'])
            fl[cname] = {'constraints': int(d['constraints'] * 0.8), 'outputs_anchored': n}
    floors[prop] = fl
json.dump(floors, open(p, 'w'), indent=1, sort_keys=True)
print('frozen', {k: len(v) for k, v in floors.items()})
