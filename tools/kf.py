#!/usr/bin/env python3
"""Maintenance helper for known_findings.json (never run by a check).

  tools/kf.py list PROP            show the new findings of the last run of PROP (evidence/replay)
  tools/kf.py add PROP N 'what' ['demonstration']   record finding number N as an open known finding
"""
import json, os, sys
V = os.path.dirname(os.path.dirname(os.path.abspath(__file__)))
KF = os.path.join(V, 'known_findings.json')


def load():
    if os.path.exists(KF):
        return json.load(open(KF))
    return {'_comment': 'open: genuine defects recorded rather than repaired (each is matched by property, rule, file, '
            'function and a line-free detail string, so any other violation is still reported). '
            'fixed: repaired defects; a fixed entry suppresses nothing.', 'open': [], 'fixed': []}


def main():
    cmd, prop = sys.argv[1], sys.argv[2]
    rp = os.path.join(V, 'evidence', 'replay', prop + '.json')
    fs = json.load(open(rp))['findings'] if os.path.exists(rp) else []
    if cmd == 'list':
        for i, f in enumerate(fs):
            print(i, f['rule'], f['file'], f['function'], '|', f['detail'][:150], '|', f['construct'][:80].replace('\n', ' '))
    elif cmd == 'add':
        ns = sys.argv[3]
        idx = range(len(fs)) if ns == 'all' else [int(x) for x in ns.split(',')]
        what = sys.argv[4]
        demo = sys.argv[5] if len(sys.argv) > 5 else ''
        k = load()
        for n in idx:
            f = fs[n]
            e = {'property': prop, 'rule': f['rule'], 'file': f['file'], 'function': f['function'],
                 'detail': f['detail'], 'what': what, 'construct_when_recorded': f['construct'][:200]}
            if demo:
                e['demonstration'] = demo
            if not any(all(o.get(x) == e[x] for x in ('property', 'rule', 'file', 'function', 'detail')) for o in k['open']):
                k['open'].append(e)
        json.dump(k, open(KF, 'w'), indent=1)
        print('recorded', len(list(idx)))


if __name__ == '__main__':
    main()
