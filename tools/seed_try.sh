#!/bin/sh
# tools/seed_try.sh <worktree> : run every check (16 at a time) against a scratch worktree holding a seeded change (evidence redirected)
wt=$1
tmp=$(mktemp -d /tmp/seedev_XXXX)
for p in C01 C02 C03 C04 C05 C06 C07 C08 C09 C10 C11 C12 C13 C14 C15 C16 C17 C18 C19 C20; do echo $p; done | \
xargs -P 16 -I{} sh -c 'SA_EVIDENCE_DIR='$tmp' /verif/check {} quick --repo '$wt' > '$tmp'/{}.out 2>&1; echo $? > '$tmp'/{}.rc'
for p in C01 C02 C03 C04 C05 C06 C07 C08 C09 C10 C11 C12 C13 C14 C15 C16 C17 C18 C19 C20; do
  rc=$(cat $tmp/$p.rc)
  if [ "$rc" != 0 ]; then echo "== $p rc=$rc new_findings=$(grep -c '^FINDING' $tmp/$p.out)"; grep '^FINDING\|ANALYSIS-ERROR' $tmp/$p.out | cut -c1-330 | head -4; fi
done
rm -rf $tmp
