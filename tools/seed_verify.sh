#!/bin/sh
# tools/seed_verify.sh <ID> <test files...> : confirm a seeded change in its scratch worktree /tmp/wt_<ID>:
#   tests pass with the change, demo fails with it and passes without it.  (No git stash: the stash is
#   shared between worktrees.)
id=$1; shift
wt=/tmp/wt_$id
cd $wt || exit 2
export PYTHONPATH=$wt
git checkout -q -- exactpack && git apply patch.diff || { echo "patch does not apply"; exit 2; }
echo "== import path: $(/venv/bin/python -c 'import exactpack; print(exactpack.__file__)')"
echo "== change: $(git diff --stat -- exactpack | tail -1)"
echo "== tests with the change: $*"
/venv/bin/python -m pytest -q -p no:cacheprovider "$@" --deselect exactpack/tests/test_riemann.py::Test_RiemannJWL_Lee::test_riemLeegen_region_boundaries 2>&1 | tail -2
echo "== demo with the change"
timeout 1200 /venv/bin/python demo.py > /tmp/seeddemo_${id}_with.log 2>&1; echo "exit $?"; tail -1 /tmp/seeddemo_${id}_with.log
git apply -R patch.diff
echo "== demo without the change ($(git diff --stat -- exactpack | wc -l) files differ from HEAD)"
timeout 1200 /venv/bin/python demo.py > /tmp/seeddemo_${id}_without.log 2>&1; echo "exit $?"; tail -1 /tmp/seeddemo_${id}_without.log
git apply patch.diff
echo "== change re-applied: $(git diff --stat -- exactpack | tail -1)"
