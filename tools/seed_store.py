#!/usr/bin/env python3
"""tools/seed_store.py <seed-id> <worktree> <property> '<needs>' : copy a confirmed seeded change into
/verif/seeded/<seed-id>/ and record which checks report it.  The change is applied to /repo with
`git apply`, every check is run (evidence redirected), and /repo is restored with `git checkout -- .`."""
import json, os, shutil, subprocess, sys, tempfile
V = os.path.dirname(os.path.dirname(os.path.abspath(__file__)))
PROPS = ['C01','C02','C03','C04','C05','C06','C07','C08','C09','C10','C11','C12','C13','C14','C15','C16','C17','C18','C19','C20']
sid, wt, prop, needs = sys.argv[1:5]
d = os.path.join(V, 'seeded', sid)
os.makedirs(d, exist_ok=True)
shutil.copy(os.path.join(wt, 'patch.diff'), os.path.join(d, 'patch.diff'))
shutil.copy(os.path.join(wt, 'demo.py'), os.path.join(d, 'demo.py'))
assert subprocess.run(['git', '-C', '/repo', 'status', '--porcelain'], capture_output=True, text=True).stdout.strip() == '', '/repo not clean'
subprocess.run(['git', '-C', '/repo', 'apply', os.path.join(d, 'patch.diff')], check=True)
caught, errors, lines = [], [], {}
tmp = tempfile.mkdtemp(prefix='seedev_')
try:
    from concurrent.futures import ThreadPoolExecutor
    def run(p):
        return subprocess.run([os.path.join(V, 'check'), p, 'quick'], capture_output=True, text=True,
                              env=dict(os.environ, SA_EVIDENCE_DIR=tmp))
    with ThreadPoolExecutor(16) as ex:
        results = list(ex.map(run, PROPS))
    for p, r in zip(PROPS, results):
        f = [l for l in r.stdout.splitlines() if l.startswith('FINDING')]
        if r.returncode == 1:
            caught.append(p)
            lines[p] = [l[:400] for l in f[:3]]
        elif r.returncode == 2:
            errors.append(p)
            lines[p] = [l[:300] for l in r.stdout.splitlines() if 'ANALYSIS-ERROR' in l][:1]
finally:
    subprocess.run(['git', '-C', '/repo', 'checkout', '--', '.'], check=True)
    shutil.rmtree(tmp, ignore_errors=True)
verify_log = ''
lp = '/tmp/seedverify_%s.log' % sid.split('-')[0]
if os.path.exists(lp):
    verify_log = open(lp).read()
meta = {
    'seed': sid, 'breaks_property': prop, 'needs_to_manifest': needs,
    'origin': 'fresh sub-agent given only the property text and a scratch worktree of /repo',
    'confirmed': 'in the scratch worktree: relevant test files pass with the change (agent also ran the full suite: only the '
                 'baseline always-fail test fails); demo.py exits 1 with the change and 0 without it',
    'verification_log': verify_log,
    'checks_run': 'git -C /repo apply patch.diff; ./check <P> quick for all claimed properties; git -C /repo checkout -- .',
    'caught_by': caught, 'analysis_error_in': errors, 'reports': lines,
}
json.dump(meta, open(os.path.join(d, 'meta.json'), 'w'), indent=1)
print(sid, 'caught by', caught, 'errors', errors)
